#!/usr/bin/env python3
"""Regenerates /verif/MANIFEST.json from the table below (kept in one place so it stays valid at all times)."""
import json,subprocess
V='/verif'
props=[json.loads(l)['id'] for l in open(V+'/properties.jsonl')]
HOOK_COMMITS=['95dc337','05b5333']
C={}
MOD=dict(C01='m_alloc.go',C02='m_alloc.go',C03='m_layout.go',C04='m_queue.go',C05='m_wakeup.go',C06='m_bytes.go',C07='m_mux.go',C08='m_bytes.go',C09='m_leak.go',C10='m_close.go',C11='m_block.go',C12='m_handshake.go',C13='m_fuzz.go',C14='m_death.go',C15='m_pool.go',C16='m_hotrestart.go',C17='m_heal.go',C18='m_evconn.go',C19='m_netlistener.go',C20='m_callback.go')
HOLD=set([])  # builders still working
def chk(pid,cat,text,note,tech,ref):
    C[pid]=dict(property_id=pid,quick_cmd='./run.sh %s quick'%pid,thorough_cmd='./run.sh %s thorough'%pid,
        evidence_file='evidence/%s.json'%pid,engine='go-harness',replay_cmd_template='./run.sh %s replay {path}'%pid,
        level_claimed=dict(category=cat,text=text,design_ref=ref),level_note=note,technique=tech)
chk('C01','exploration',
 'Real pop/push/alloc/recycle operations run under four concurrency regimes, three memory back-ends (heap, mmap, memfd shared by 2-3 processes) and ten perturbation profiles; an ownership table, geometry and payload/header signature checks decide "never two owners / nobody else writes". Held on the executions observed (counts in the evidence); the ABA defect F1 is a known finding attributed by a sound detector.',
 'Interleavings are sampled (x86-TSO only). Violations in mixed executions that contain an ABA suspect are attributed to known finding F1; regimes R2/R3/R4, in which ABA is impossible, carry the full oracle.',
 'runtime monitor: ownership table + signature checks + ABA-suspect detector hooks over stress workloads','4/C01')
chk('C02','exploration',
 'Same executions as C01; a stop-the-world free-list walker (size == cap - held, chain from head visits exactly the free slots once and ends at tail) runs every few hundred microseconds and at the end of each execution; failed allocations are covered by the same count invariant.',
 'As C01. The walker only runs at points where no operation is in progress (harness RW lock / phase barriers), so transient states are never judged.',
 'runtime monitor: quiescent-point structural invariant walker','4/C02')
chk('C03','exploration',
 'Generated and boundary configurations are laid out by the real create functions on guarded heap memory, on /dev/shm files and on memfds; the mapping side (a child process for the real back-ends) must reconstruct identical geometry, every slot is pattern-probed through the other side, queues are checked for disjoint halves and cross-wiring.',
 'Mappings >= 4 GiB and hostile contents of an existing mapping are outside what is explored.',
 'differential runtime check creator vs mapper (child process) + interval/overlap oracle','4/C03')
chk('C04','exploration',
 'Real queue.put/pop with 1-16 producers and one consumer, capacities 1..1024, cursors preset for wrap-around, heap and mmap rings, seven perturbation profiles; every history is checked by linear bad-pattern scans (complete for unique elements and one consumer), short shallow histories additionally by porcupine against a bounded FIFO; a race-detector pass treats unordered accesses inside put/pop as a violation.',
 'Producers of one process only (the supported topology); int64 cursor overflow not explored; porcupine time-outs are inconclusive.',
 'recorded histories: linearizability bad-pattern scans + porcupine; race detector sentinel','4/C04')
chk('C05','exploration',
 'Echo bursts over real session pairs make both consumers go idle while producers arrive (sleeps injected in markNotWorking / wakeUpPeer windows); after every burst the property\'s own quiescence predicate is evaluated (all polling events sent have been received and handled, then the receive queue must be empty).',
 'The precondition is established with the library\'s polling counters and a double fence on the event loop; bursts where it cannot be established are skipped. In-process peer (both ends share one event loop).',
 'runtime monitor: quiescence predicate at thousands of quiescent points under injected delays','4/C05')
chk('C15','exploration',
 'SessionManager + Listener in one process; 2-32 concurrent callers loop GetStream/request/reply/PutBack with hostile put-backs (part-read, unflushed, never-looked-at pending message), server-side closes, exhaustion-induced fallback and session kills; owner tags decide exclusivity, unique request ids decide "no bytes from an earlier use", quiesced phases decide clean/live and the accounting active == pooled + held; porcupine on the bare pool ring; race sentinel on push/pop.',
 'Session kills are serialised against stream use (known finding F2 makes overlapping use process-fatal; that is C14\'s subject). In-flight replies to a stream put back without reading are outside the oracle.',
 'runtime monitor: ownership tags, id-echo oracle, quiescent accounting; porcupine; race detector sentinel','4/C15')

chk('C06','exploration',
 'Model-based differential testing on real session pairs: generated sequences of every writer call (WriteBytes, Reserve, WriteByte, WriteString, Write, Flush) and reader call (ReadBytes, Peek, Discard, ReadByte, ReadString, Read, ReleasePreviousRead, ReleaseReadAndReuse) with sizes at the class boundaries, six slice-size configurations and four exhaustion levels (hoarded allocator => shm, socket fallback, mixed); a keyed byte function is the reference pipe; Len, Peek-neutrality and counts are checked at every step.',
 'One goroutine per stream end (the API does not support concurrent use of one stream); sizes beyond a few MiB not explored; executions run in child processes so a library panic is attributed to the running sequence.',
 'reference-model monitor (keyed byte pipe) over generated operation sequences','4/C06')
chk('C07','exploration',
 'One session with 8-256 concurrent streams in both directions, PRNG-sized keyed chunks, close right after the last flush, a hoarder that makes individual messages switch to the socket, tiny queues (queue-full paths), sleeps injected in the wake-up / fallback / close / polling windows; readers check every byte against f(stream, direction, position) and that end-of-stream is only reported at or after the byte count the writer had flushed before Close.',
 'Synchronous readers (callback mode is C20); executions whose session dies are discarded; large size classes keep known finding F1 improbable.',
 'runtime monitor: keyed byte model per (stream, direction) + flushed-before-close table under stress and injected delays','4/C07')
chk('C08','exploration',
 'A registry of every zero-copy result (ReadBytes/Peek slice + copy) not yet released is re-compared after every step while a scribbler allocates, overwrites (0xEE) and recycles every free buffer (deterministically between steps, and concurrently in stress mode); after release by ReleasePreviousRead / ReleaseReadAndReuse / Close the allocator census must return to baseline.',
 'Stress mode keeps >= 256 free slots per class and discards executions with an ABA suspect (known finding F1) as inconclusive; deterministic mode is single-threaded on the allocator.',
 'runtime monitor: live-slice registry + scribbler + allocator census','4/C08')
chk('C09','exploration',
 'Random histories over 1-40 streams (opens, writes of any size, flushes also on closed/half-closed streams, partial reads, releases, closes from either side, near-simultaneous closes, tiny queues, hoarder-induced fallback, data for streams the peer just closed, pool-style reuse), single-threaded with a census after every close pair and concurrent; at logical quiescence AllInUsedShareMemory must be 0, every class size == cap and the free-list walk complete.',
 'In-process peer; zombies (streams re-created by late data) are drained and closed before the census; leaks needing > 40 streams or > 300 steps not reached.',
 'runtime monitor: allocator census + free-list walk at quiescent points over generated histories','4/C09')
chk('C10','exploration',
 'Enumerated scenario table (who closes, when, sync/callback mode, from which goroutine incl. inside OnData/OnRemoteClose, shm/fallback transport) x PRNG timings with sleeps in the close windows; per-stream event records at the API boundary are checked: operations after a local Close fail, the stream leaves the active count, the peer sees end-of-stream after draining and cannot send, states only move forward, exactly one close callback per closure not already known; an aligned close storm exercises the both-ends-at-once race.',
 'Interpretation no stricter than the documented deferral of Close during OnData. Operations issued concurrently with a deferred close\'s cleanup are not driven by the harness (F2 family).',
 'runtime monitor: API-boundary event records checked against close-protocol rules','4/C10')
chk('C11','exploration',
 'Bounded-progress restatement: for every blocking call (ReadBytes, Peek, Discard, ReadByte, ReadString, Read, Flush on a full queue, AcceptStream, handshake) x releasing event (data, data in two parts, deadline, local/peer stream close, local/peer session close, silent peer) x timing (before the call, inside the test-then-subscribe window held open by a hook, after parking) the call must return within 3 event-loop fences + 5 s of the event, never with ErrTimeout before its deadline.',
 'A finite run cannot decide "forever": the bound is the statement. Judged only with a healthy scheduler canary; peer process death as releasing event is C14.',
 'runtime monitor: bounded-progress oracle over an enumerated call x event x timing table with a hook-held race window','4/C11')
chk('C12','fault_enumeration',
 'Every pairing of library/raw client and server (file and memfd mapping, protocol 2 and 3, unix and tcp) and, for every step of every exchange and both roles, a peer that stops answering, closes, sends a wrong type or half a message, plus library ends killed or stalled at every handshake hook point: success must give equal min version and the very same inodes mapped in both processes; failure must give an error within the timeout on both ends and a clean census (fds, mappings, /dev/shm files).',
 'The fault list is finite and enumerated completely. A peer that answers after the timeout (late answer) is outside the fault model and only probed.',
 'fault enumeration with scripted raw peers + process census','4/C12')
chk('C13','fault_enumeration',
 'Structure-aware generated and mutated event streams (17 mutation kinds, every type 0-255, lengths below/above, wrong direction/phase, unknown/closed streams) are fed to live sessions of both roles: directly to handleEvents (consumed bounds, no panic, re-offer rule), through the socket with harness-controlled fragmentation (whole / byte-wise / PRNG cuts must give identical observations) and in the handshake phase; a healthy sibling session must keep echoing and the hosting child must stay alive.',
 'Inputs are logged before execution so a dead child is attributed to its last input; hostile contents of shared memory objects are outside the statement.',
 'generated hostile inputs against live sessions in child processes + differential fragmentation oracle','4/C13')
chk('C14','fault_enumeration',
 'Survivor and victim nodes (child processes, one library session each) run echo traffic; the victim kills itself or severs the connection at the k-th hit of each hook point it passes (22 handshake steps, flush, wake-up, queue element k, control event k, ...), or is SIGSTOPped/SIGKILLed; the survivor must see its session closed, every pending/later call fail, one close callback per callback stream, no crash or hang, and a clean census after teardown; Session.Close storms (1/2/8 closers, OpenStream/GetMetrics racing) in a child.',
 'Known finding F2 (teardown does not wait for users of streams/memory): a survivor that dies inside a user-side stream operation after its teardown began is attributed to F2 by a narrow classifier; quick runs a PRNG-chosen subset of the enumerated list, thorough all of it.',
 'fault injection at enumerated hook points in child processes + survivor-side monitors + census','4/C14')
chk('C16','exploration',
 'Old and new listener on one path, SessionManager with 1-4 sessions, tagged replies, client traffic throughout; scenarios: complete hand-over, foreign-epoch restart events and acknowledgements injected deterministically behind the real ones, new server not accepting, client session lost mid-way, two restarts back to back; both sides must leave the hot-restart state within the protocol timeout + slack, pools must carry the announced epoch, old sessions stay usable until the old listener closes, no round trip fails outside the allowed windows.',
 'In-process listeners; bounds include the protocol\'s own 2 s timeout; known finding F3 lives in C17.',
 'runtime monitor: timeline + tagged round-trip records + state sampling under injected event delays','4/C16')
chk('C17','exploration',
 'Losses (one session, all, three in a row, server gone and back after 1-3 intervals, loss after hot restart) with callers polling GetStream: healed within rebuild interval + 3 s, calls in between fail rather than hang, the servers accepted exactly initial + lost sessions (double rebuild shows as an extra), after SessionManager.Close no watcher goroutine and no new connection.',
 'Known finding F3 is expressed by one directed scenario (new-epoch session lost while its predecessor is open). Losses are injected while no caller is inside a stream operation (F2).',
 'runtime monitor: accept census, per-call records, goroutine census over injected loss scenarios','4/C17')
chk('C18','exploration',
 'connEventHandler pairs on unix and tcp sockets with minimal socket buffers: write sizes 1 B - 6 MiB (EAGAIN, partial writes), a recording callback consuming PRNG prefixes with hold-back phases (buffer growth past 64 KiB, 1 MiB delivery threshold, shrink after 4 MiB); real sessions with 2-32 concurrent senders against a strict raw event parser; byte-exactness, prefix rule and writer exclusion are checked, in the normal and the race build (different dispatcher source).',
 'Connection close is outside the quantifier (bytes written right before a close may be dropped on EPOLLRDHUP: observation only).',
 'runtime monitor: byte-exact stream comparison + strict parser + writer-exclusion hook; race build pass','4/C18')
chk('C19','exploration',
 'Listen/Accept over real client sessions: echo with PRNG buffer sizes, closes from either side, deadlines, listener close at any moment incl. non-empty backlog and in-flight streams; per-conn records check the io.Reader/io.Writer contracts, exactly-once Accept, deadline behaviour, Accept unblocking and that sessions end once every conn is closed.',
 '"as on a socket" is read behaviourally; the error need not implement net.Error.',
 'runtime monitor: per-conn contract records + session end census','4/C19')
chk('C20','exploration',
 'Callback streams with four OnData styles (consume all, prefix, blocking read, slow), bursts around the callback duration, Close / peer close at PRNG points, sleeps at the hand-off points of the callback goroutine and before the event loop\'s CAS; a recorder inside OnData checks re-entrancy <= 1 and the keyed byte sequence; at quiescence offered == flushed for open and peer-closed streams.',
 'OnData runs on a pool goroutine; sleeps on the event loop are kept <= 200 us.',
 'runtime monitor: in-callback recorder (re-entrancy, keyed order) + quiescence predicate under injected delays','4/C20')


EXTRA={
 'C01':'A creator-restart stage re-creates the /dev/shm path from a child process while this process still maps the old file and holds keyed buffers; half of the cases use exact-fit mappings.',
 'C02':'Half of the cases use mappings that end exactly at the last slot.',
 'C03':'A live-mapping stage attaches to a region 20000+ times while four goroutines allocate on it (one class exhausted) and compares the static geometry.',
 'C05':'Directed congested-control-connection cases (the harness owns the writing flag and fills the send channel for three write time-outs) and backlog phases with the consumer held.',
 'C07':'Deep-backlog cases: consumer held, thousands of elements queued, share memory exhausted, tail of the stream and its close on the socket.',
 'C10':'Also: session end after an already reported peer close (callback counts), and put-back of a pooled callback-mode stream from inside OnData.',
 'C11':'A ReadBytes inside a data callback is one of the call types.',
 'C12':'Fragmented delivery: the raw peer writes in pieces in a third of its cases, library-to-library pairings go through a fragmenting relay in odd rounds.',
 'C13':'A third of the child batches run with protocol tracing switched on.',
 'C14':'Close storms include sessions whose accept backlog is full; callback streams come in read-what-is-there, blocking-read and lingering (working on zero-copy data) styles.',
 'C15':'A third of the pools start with ring counters just below 2^32; capacities include 3, 5, 6 and 7.',
 'C17':'Also: a loss followed by a hot restart inside the rebuild interval, SessionManager.Close while a rebuild is in flight (watcher parked at a hook), bounded Close at the end of every scenario.',
 'C18':'C cases: a writer parked in EAGAIN while the held event loop lets readable and writable coalesce into one event.',
 'C19':'Extra rounds: one conn closed by several goroutines at once, a blocked Read released by a local Close, listener closed while a handshake is in flight.',
}
for _p,_t in EXTRA.items():
    if _p in C: C[_p]['level_claimed']['text']=C[_p]['level_claimed']['text'].rstrip()+' '+_t
import os
C={p:v for p,v in C.items() if os.path.exists('/verif/harness/'+MOD[p]) and p not in HOLD}
pending={p:'check under construction in this round (DESIGN.md section 4); not claimed yet' for p in props if p not in C}
import os
for p in list(pending):
    pass
m={"version":1,
 "setup_cmd":"./setup.sh",
 "hooks":{"guard":"verif","enable":"run.sh: go test -c -tags verif -overlay <harness files as zz_verif_*_test.go> -modfile <go.mod + porcupine> in /repo","baseline_off_cmd":"cd /repo && GOFLAGS=-mod=mod GOPROXY=off go test -json -vet=off -count=1 -timeout 25m ./...","source_commits":HOOK_COMMITS,"add_only":True},
 "engines":[{"name":"go-harness","path":"harness/","serves_properties":sorted(C),"kind_free_text":"Go test binary built from /repo's working tree with the verif build tag; monitors, perturbation controller, child-process runner; porcupine for recorded histories; go race detector for sentinel passes"}],
 "checks":[C[p] for p in sorted(C)],
 "not_applicable":[{"property_id":p,"reason":r} for p,r in sorted(pending.items())],
 "notes":"All checks: exit 0 held on what was observed, 1 VIOLATION (replay file written), 2 nothing observed, 3 harness build failure. KNOWN-FINDING lines: see known_findings.json."}
json.dump(m,open(V+'/MANIFEST.json','w'),indent=1)
print('checks:',sorted(C),'pending:',sorted(pending))
