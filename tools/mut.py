#!/usr/bin/env python3
"""Self-test helper: apply a mutant to a scratch copy of /repo and run checks against it.
  mut.py new  <name> <file> <old> <new> [--count N]   create mutants/<name>.patch from a textual replacement
  mut.py run  <name> <check>[,<check>...] [tier]       apply mutants/<name>.patch to a scratch copy, run checks, report
Scratch copies live under /tmp/vmut_<name>_<pid> and are removed afterwards."""
import sys,os,subprocess,shutil,tempfile,re
V='/verif'
def scratch(name):
    d='/tmp/vmut_%s_%d'%(name,os.getpid())
    subprocess.check_call(['rsync','-a','--exclude','.git','/repo/',d+'/'])
    return d
def main():
    cmd=sys.argv[1]
    if cmd=='new':
        name,f,old,new=sys.argv[2:6]
        cnt=1
        if '--count' in sys.argv: cnt=int(sys.argv[sys.argv.index('--count')+1])
        old=old.encode().decode('unicode_escape'); new=new.encode().decode('unicode_escape')
        d=scratch(name)
        try:
            p=os.path.join(d,f); s=open(p).read()
            if s.count(old)!=cnt:
                print('old text occurs',s.count(old),'times, expected',cnt); sys.exit(2)
            open(p,'w').write(s.replace(old,new))
            r=subprocess.run('cd %s && GOFLAGS=-mod=mod GOPROXY=off go build ./... 2>&1'%d,shell=True,capture_output=True,text=True)
            if r.returncode!=0:
                print('mutant does not build:',r.stdout); sys.exit(2)
            out=subprocess.run(['diff','-u','/repo/'+f,p],capture_output=True,text=True).stdout
            out=out.replace('--- /repo/'+f,'--- a/'+f).replace('+++ '+p,'+++ b/'+f)
            out=re.sub(r'^(--- a/\S+)\t.*$',r'\1',out,flags=re.M); out=re.sub(r'^(\+\+\+ b/\S+)\t.*$',r'\1',out,flags=re.M)
            open('%s/mutants/%s.patch'%(V,name),'w').write(out)
            print('wrote mutants/%s.patch'%name)
        finally:
            shutil.rmtree(d,ignore_errors=True)
    elif cmd=='run':
        name=sys.argv[2]; checks=sys.argv[3].split(','); tier=sys.argv[4] if len(sys.argv)>4 else 'quick'
        patch=name if os.path.exists(name) else '%s/mutants/%s.patch'%(V,name)
        d=scratch(os.path.basename(name).replace('.patch','').replace('.diff',''))
        try:
            r=subprocess.run(['patch','-p1','-s','-d',d,'-i',os.path.abspath(patch)],capture_output=True,text=True)
            if r.returncode!=0:
                print('patch failed',r.stdout,r.stderr); sys.exit(2)
            ok=True
            for c in checks:
                env=dict(os.environ,VERIF_REPO=d,VERIF_WORK='/tmp/vmutwork_%s_%d'%(c,os.getpid()),VERIF_DIR_EVIDENCE_SUFFIX='.mut')
                env['VERIF_EVIDENCE_DIR']='/tmp/vmutwork_%s_%d/evidence'%(c,os.getpid()); env['VERIF_REPLAY_DIR']='/tmp/vmutwork_%s_%d/replays'%(c,os.getpid())
                r=subprocess.run([V+'/run.sh',c,tier],capture_output=True,text=True,env=env)
                out=r.stdout+r.stderr
                fired='VIOLATION property=' in out
                lines=[l for l in out.split('\n') if l.startswith('VIOLATION') or l.startswith('  case=') or l.startswith('KNOWN-FINDING') or l.startswith('SUMMARY') or 'BUILD-FAILED' in l]
                print('%-28s %s rc=%d %s'%(name,c,r.returncode,'FIRED' if fired else 'MISSED'))
                for l in lines[:6]: print('    '+l[:300])
                if not fired: ok=False
                shutil.rmtree(env['VERIF_WORK'],ignore_errors=True)
            sys.exit(0 if ok else 1)
        finally:
            shutil.rmtree(d,ignore_errors=True)
main()
