#!/usr/bin/env python3
"""tools/selftest.py [-j N] [pattern]  — runs every mutants/*.patch against its check (quick tier) and writes mutants/RESULTS.md"""
import os,sys,subprocess,glob,re,concurrent.futures,time
V='/verif'
REVERT={'X1':['C09','C08'],'X2':['C10'],'X3':['C06'],'X4':['C13'],'X5':['C13'],'X6':['C13'],'X7':['C15'],'X8':['C07','C10'],'X9':['C07'],
 'X10':['C15'],'X11b':['C20'],'X12b':['C19'],'X12c':['C19'],'X13':['C06'],'X14':['C14'],'X15':['C10','C09','C15'],'X16':['C14'],'X17':['C20'],'X18':['C20'],'X19':['C10'],'X20':['C12'],'X21':['C11'],'X22':['C14'],'X23':['C20']}
def checks_for(name):
    m=re.match(r'(C\d\d)-',name)
    if m: return [m.group(1)]
    m=re.match(r'revert-(X\w+)$',name)
    if m: return REVERT.get(m.group(1),[])
    return []
def run(job):
    name,chk=job
    t=time.time()
    r=subprocess.run([V+'/tools/mut.py','run',name,chk,'quick'],capture_output=True,text=True)
    out=r.stdout+r.stderr
    res='FIRED' if 'FIRED' in out else ('MISSED' if 'MISSED' in out else 'ERROR')
    first=''
    for l in out.split('\n'):
        if l.strip().startswith('case='): first=l.strip()[:160]; break
    return name,chk,res,first,int(time.time()-t)
def main():
    j=4; pat=''
    a=sys.argv[1:]
    if '-j' in a: j=int(a[a.index('-j')+1]); del a[a.index('-j'):a.index('-j')+2]
    if a: pat=a[0]
    jobs=[]
    for p in sorted(glob.glob(V+'/mutants/*.patch')):
        name=os.path.basename(p)[:-6]
        if pat and pat not in name: continue
        for c in checks_for(name): jobs.append((name,c))
    rows=[]
    with concurrent.futures.ThreadPoolExecutor(j) as ex:
        for name,chk,res,first,sec in ex.map(run,jobs):
            print('%-44s %s %-6s %4ds %s'%(name,chk,res,sec,first),flush=True)
            rows.append((name,chk,res,first))
    if not pat:
        with open(V+'/mutants/RESULTS.md','w') as f:
            f.write('# Self-test: mutants vs checks (quick tier, VERIF_SEED=1)\n\n| mutant | check | result | first witness |\n|---|---|---|---|\n')
            for r in rows: f.write('| %s | %s | %s | %s |\n'%(r[0],r[1],r[2],r[3].replace('|','/')))
    print('FIRED %d / %d'%(sum(1 for r in rows if r[2]=='FIRED'),len(rows)))
main()
