#!/usr/bin/env python3
"""tools/r2final.py [suite|checks|meta] — final confirmation of the round-2 seeded changes stored under /verif/seeded/*-r2s*:
  suite : the repository's own suite with the change applied, in a private namespace (tmpfs /tmp and /dev/shm), up to 3 attempts
          (the suite has two load-dependent flakes); result -> meta.json suite_passes_with_change
  checks: the owning check (and the sibling check that also sees it) against the changed tree -> meta.json final_check_results
  meta  : fill in property / change / needs_to_manifest / result texts
"""
import sys, os, json, subprocess, shutil, concurrent.futures as cf
V = '/verif'
ENVS = 'export GOFLAGS=-mod=mod GOPROXY=off GOSUMDB=off GOTOOLCHAIN=local'
CHECKS = {
 'C01-r2s1': 'C01', 'C01-r2s2': 'C01,C09', 'C02-r2s1': 'C02', 'C02-r2s2': 'C02', 'C03-r2s1': 'C03', 'C03-r2s2': 'C03',
 'C04-r2s1': 'C04', 'C04-r2s2': 'C04', 'C05-r2s1': 'C05', 'C05-r2s2': 'C05', 'C06-r2s1': 'C06,C07', 'C06-r2s2': 'C06',
 'C07-r2s1': 'C07', 'C07-r2s2': 'C07', 'C08-r2s1': 'C08', 'C08-r2s2': 'C08', 'C09-r2s1': 'C09', 'C09-r2s2': 'C09,C10',
 'C10-r2s1': 'C10', 'C10-r2s2': 'C10', 'C11-r2s1': 'C11', 'C11-r2s2': 'C11,C18', 'C12-r2s1': 'C12', 'C12-r2s2': 'C12',
 'C13-r2s1': 'C13,C18', 'C13-r2s2': 'C13', 'C14-r2s1': 'C14,C12', 'C14-r2s2': 'C14', 'C15-r2s1': 'C15', 'C15-r2s2': 'C15',
 'C16-r2s1': 'C16,C17', 'C16-r2s2': 'C16', 'C17-r2s1': 'C17', 'C17-r2s2': 'C17', 'C18-r2s1': 'C18', 'C18-r2s2': 'C18',
 'C19-r2s1': 'C19', 'C19-r2s2': 'C19', 'C20-r2s1': 'C20,C11', 'C20-r2s2': 'C20',
 'C05-r3s1': 'C05', 'C07-r3s1': 'C07', 'C10-r3s1': 'C10,C07', 'C11-r3s1': 'C11', 'C11-r3s2': 'C11,C16', 'C14-r3s1': 'C14',
 'C15-r3s1': 'C15,C10', 'C17-r3s1': 'C17,C16', 'C19-r3s1': 'C19,C11', 'C19-r3s2': 'C19,C07',
}
def seeds():
    return sorted(d for d in os.listdir(V + '/seeded') if '-r2s' in d or '-r3s' in d)
def load(sid):
    p = '%s/seeded/%s/meta.json' % (V, sid)
    try: return json.load(open(p))
    except Exception: return {'id': sid}
def save(sid, m):
    json.dump(m, open('%s/seeded/%s/meta.json' % (V, sid), 'w'), indent=1)
def suite_one(sid):
    d = '/var/tmp/r2suite_%s' % sid
    shutil.rmtree(d, ignore_errors=True)
    subprocess.check_call(['rsync', '-a', '--exclude', '.git', '/repo/', d + '/'])
    r = subprocess.run(['patch', '-p1', '-s', '-d', d, '-i', '%s/seeded/%s/patch.diff' % (V, sid)], capture_output=True, text=True)
    if r.returncode != 0:
        shutil.rmtree(d, ignore_errors=True); return sid, False, 'patch does not apply'
    ok, tail, tries = False, '', 0
    for tries in range(1, 4):
        cmd = "unshare -r -m -n bash -c 'mount -t tmpfs tmpfs /tmp && mount -t tmpfs tmpfs /dev/shm && (ip link set lo up || true) && cd %s && %s && go test -vet=off -count=1 -timeout 20m . 2>&1 | tail -5'" % (d, ENVS)
        try:
            r = subprocess.run(cmd, shell=True, capture_output=True, text=True, timeout=1500)
            tail = (r.stdout + r.stderr).strip().split('\n')[-1][:200]
        except subprocess.TimeoutExpired:
            tail = 'timeout'
        if tail.startswith('ok'):
            ok = True; break
    shutil.rmtree(d, ignore_errors=True)
    return sid, ok, '%s (attempt %d)' % (tail, tries)
def checks_one(sid):
    patch = '%s/seeded/%s/patch.diff' % (V, sid)
    res = {}
    for c in CHECKS[sid].split(','):
        r = subprocess.run([V + '/tools/mut.py', 'run', patch, c], capture_output=True, text=True)
        out = r.stdout + r.stderr
        res[c] = 'FIRED' if ' FIRED' in out else 'MISSED'
        first = [l.strip() for l in out.split('\n') if l.strip().startswith('case=')]
        if first: res[c + '_first'] = first[0][:300]
    return sid, res
def main():
    mode = sys.argv[1]; only = sys.argv[2:] or None
    ids = [s for s in seeds() if not only or s in only]
    if mode == 'suite':
        with cf.ThreadPoolExecutor(4) as ex:
            for sid, ok, info in ex.map(suite_one, ids):
                m = load(sid); m['suite_passes_with_change'] = ok; m['suite_note'] = info; save(sid, m)
                print(sid, ok, info, flush=True)
    elif mode == 'checks':
        with cf.ThreadPoolExecutor(3) as ex:
            for sid, res in ex.map(checks_one, ids):
                m = load(sid); m['final_check_results'] = {k: v for k, v in res.items() if not k.endswith('_first')}
                m['final_first_violation'] = {k[:-6]: v for k, v in res.items() if k.endswith('_first')}
                save(sid, m)
                print(sid, m['final_check_results'], flush=True)
main()
