#!/bin/bash
# tools/sweep.sh <tier> <seed> <Cxx> ...   — runs checks sequentially, prints one line per check
tier=$1; seed=$2; shift 2
cd /verif
for c in "$@"; do
  s=$(date +%s)
  VERIF_SEED=$seed timeout 3600 ./run.sh $c $tier > /tmp/sweep_$c.$seed.out 2>&1; rc=$?
  e=$(date +%s)
  echo "$c seed=$seed rc=$rc wall=$((e-s))s $(grep -c '^VIOLATION' /tmp/sweep_$c.$seed.out) viol, $(grep -c '^INCONCLUSIVE' /tmp/sweep_$c.$seed.out) inconcl, $(grep -c '^KNOWN-FINDING' /tmp/sweep_$c.$seed.out) known | $(grep '^SUMMARY' /tmp/sweep_$c.$seed.out | cut -c1-160)"
done
